#!/usr/bin/env python3
"""Regenerates /verif/MANIFEST.json from the per-property table below (kept in one place so
the file is always schema-valid and `not_applicable` stays current)."""
import json
import os

ROOT = os.path.dirname(os.path.dirname(os.path.abspath(__file__)))

BASE_NOTE = (
    "Trusted: CPython ast, pyvc (own VC generator, /verif/pyvc), z3-solver 5.1; modelled NumPy/math surface (pyvc/externals.py, listed per run in evidence.trusted_base); "
    "float arithmetic treated as exact extended-real arithmetic (A1), numba semantics = verified Python subset with int64/dtype/bounds excluded by obligations (A3). "
)

CLAIMED = {
    "C11": dict(category="proof", technique='contract-based deductive verification: sidecar contracts on the real functions, VCs generated from /repo source by pyvc (loop invariants, ghost lemmas, callee contracts), discharged by z3' + "; " + 'run-time contracts of the property evaluated on the real functions over enumerated / seeded bounded domains against oracles written from the property statement (bounded stand-in, never counted as proved)',
        text="Proved for all inputs: gcd divides; _comb(n,k) == C(n,k) (Pascal-defined spec) with every int64 intermediate in range whenever C(n,k) < 2^53 (n < 2^62); both 100x12 tables; comb / comb_with_replacement; genotype_alleles_as_index == IDX (VCF order) for sorted tuples with < 2^53 genotypes; increment_genotype is the successor (IDX+1, sorted); index_as_genotype_alleles is a right inverse (index < 2^53, ploidy <= 255); IDX injective and IDX < cwr(n,P) iff max allele < n (bijection onto 0..N-1). Bounded: same functions and scipy-based count_unique_genotypes on a grid vs math.comb / explicit colex enumeration.",
        design_ref="DESIGN.md 4 (C11)", note=BASE_NOTE + "cwr(0,0)=0 is the code's documented quirk and part of the spec (claimed for >= 1 allele); side conditions n < 2^62, ploidy <= 255 for the inverse."),
    "C04": dict(category="proof", technique='contract-based deductive verification: sidecar contracts on the real functions, VCs generated from /repo source by pyvc (loop invariants, ghost lemmas, callee contracts), discharged by z3' + "; " + 'run-time contracts of the property evaluated on the real functions over enumerated / seeded bounded domains against oracles written from the property statement (bounded stand-in, never counted as proved)',
        text="Proved for all inputs: log_likelihood == LLK (sum over reads of count x log(mean over haplotypes of product over SNVs), NaN -> factor 1); log_likelihood_structural_change == LLK of the rearranged genotype; jitutils.structural_change implements that rearrangement; calling.log_likelihood_alleles == LLKA. Proved for the spec function the code computes: invariance under any permutation of the haplotypes and of the reads (finite sums under a bijection, by induction), and a read of count c counts like the same read listed twice with counts c-k and k. Bounded: the same symmetries, pedigree zero-count masking and cache wrappers on seeded tensors.",
        design_ref="DESIGN.md 4 (C04)", note=BASE_NOTE + "Precondition: a zero read count never meets an impossible read (numpy 0*-inf)."),
    "C15": dict(category="proof", technique='contract-based deductive verification: sidecar contracts on the real functions, VCs generated from /repo source by pyvc (loop invariants, ghost lemmas, callee contracts), discharged by z3' + "; " + 'run-time contracts of the property evaluated on the real functions over enumerated / seeded bounded domains against oracles written from the property statement (bounded stand-in, never counted as proved)',
        text="Proved for all ploidies / SNV counts: mutation.compound_step visits every (haplotype, SNV) pair exactly once (table fill without dtype narrowing, shuffle bijection, call arguments); random_breaks returns contiguous non-empty intervals partitioning [0,n); structural.compound_step calls interval_step once per interval. Bounded: sweep recorder up to 400 SNVs, homozygosity screen vs independent single-SNV posterior, fixed-site re-insertion in DenovoMCMC._mcmc.",
        design_ref="DESIGN.md 4 (C15)", note=BASE_NOTE + "np.random.shuffle is a trusted bijection; random_breaks / _mcmc are not under U contract."),
    "C09": dict(category="other", technique='contract-based deductive verification: sidecar contracts on the real functions, VCs generated from /repo source by pyvc (loop invariants, ghost lemmas, callee contracts), discharged by z3' + " (arraymap included; structural label/option helpers assumed); " + 'run-time contracts of the property evaluated on the real functions over enumerated / seeded bounded domains against oracles written from the property statement (bounded stand-in, never counted as proved)',
        text="Proved (modulo the assumed contract of structural.haplotype_segment_labels): assemble -- the structural option enumerators and counters (exact option count, allocation bound, every option reversible), arraymap new/get/set (the trie with growth and flush, against a concrete path specification and a tree-ness invariant), cached wrappers, base_step, interval_step, both compound_steps, chain_swap_step and _denovo_assembler: every likelihood recorded in the cold trace equals LLK of the recorded genotype for every move sequence, temperature ladder and cache state. call -- log_likelihood_alleles_cached over the numba dict (coherence via injectivity of the G-field index and permutation invariance of the likelihood), gibbs_options, mh_options, compound_step, mcmc_sampler: every recorded likelihood equals LLKA of the recorded sorted genotype. pedigree -- log_likelihood_alleles_cached, gibbs_probabilities, metropolis_hastings_probabilities, allele_step, sample_step, compound_step and pair_allele_swap_step keep every cached value equal to the likelihood of the owning sample's own reads (the fixed defect F3 is a failing obligation). Bounded: arraymap on exhaustive operation sequences (growth, flush) vs a dict model; recorded llk == recomputed llk for assemble, call and every entry of a caller-supplied pedigree cache; cache on/off same trajectory.",
        design_ref="DESIGN.md 4 (C09)", note=BASE_NOTE + "Assumed (R-checked) contracts: structural.haplotype_segment_labels (shape / range), pedigree trio_log_pmf and trio_allele_log_pmf (abstract results); POSREADS: all likelihoods the sampler can meet are finite."),
    "C01": dict(category="other", technique='run-time contracts of the property evaluated on the real functions over enumerated / seeded bounded domains against oracles written from the property statement (bounded stand-in, never counted as proved)' + "; " + 'contract-based deductive verification: sidecar contracts on the real functions, VCs generated from /repo source by pyvc (loop invariants, ghost lemmas, callee contracts), discharged by z3' + " for base_step, interval_step, the exchange step and the prior closed forms",
        text="Bounded, exhaustive: for all ordered genotypes of small instances (ploidy<=4, <=3 SNVs, bi/tri-allelic, gaps, counts) x inbreeding {0,.3} x inverse temperature {1,.6}: base_step and interval_step probability vectors captured from the real kernels satisfy detailed balance w.r.t. (lik x prior)^t over unordered genotypes and depend on the genotype only as a multiset; exchange acceptance formula and state swap; orchestration arguments. Proved: base_step hands random_choice exactly the closed-form Metropolis-Hastings kernel exp(min(0, temp x (dllk + dlprior) + log(copies after/before)))/(n-1) with the prior a function of the genotype's haplotype dosage (get_haplotype_dosage strong contract); interval_step hands it exp(min(0, temp x (dllk + dlprior) + log(1/n_back) - log(1/n_options)))/n_options for every structural option (n_back: abstract result of the assumed option-count helper); chain_swap_step accepts with min(1, exp((U_j-U_i)(T_i-T_j))) and that acceptance is in detailed balance for the product of tempered targets (lemma); base_step / interval_step vectors are probability distributions with the stated frames, _denovo_assembler keeps llks[t] == LLK(genotypes[t]) for every chain, assemble prior == (Dirichlet-)multinomial closed form.",
        design_ref="DESIGN.md 4 (C01)", note=BASE_NOTE + "Detailed balance per move => stationarity is mathematics outside the check (A6)."),
    "C02": dict(category="other", technique='contract-based deductive verification: sidecar contracts on the real functions, VCs generated from /repo source by pyvc (loop invariants, ghost lemmas, callee contracts), discharged by z3' + "; " + 'run-time contracts of the property evaluated on the real functions over enumerated / seeded bounded domains against oracles written from the property statement (bounded stand-in, never counted as proved)',
        text="Proved for all inputs in the stated domain: gibbs_options gives allele a probability proportional to exp(LLKA(g[k:=a])) x the Polya-urn conditional of copy k ((alpha_a + copies among the others)/(sum alpha + P - 1); the frequency when F = 0), sums to one, restores the genotype; mh_options returns the closed-form Metropolis-Hastings vector (uniform proposal over the other alleles, acceptance min(1, posterior ratio x copies ratio)) summing to one; normalise_log_probs / sum_log_probs / add_log_prob; compound_step resamples every copy once. Lemmas over those closed forms: the Polya-urn conditional is the exact conditional of the joint prior of the ordered allele vector (flat and with frequencies), hence the Gibbs vector is the exact full conditional of lik x prior / permutations; the MH vector satisfies detailed balance for the same target (permutation-count ratio via allele-indexed sums). Left to mathematics outside (A6): detailed balance => stationarity, projection to unordered genotypes. Bounded, exhaustive on small instances: the same identities numerically, zero-frequency alleles, single allele, 70 haplotypes.",
        design_ref="DESIGN.md 4 (C02)", note=BASE_NOTE),
    "C03": dict(category="other", technique='contract-based deductive verification: sidecar contracts on the real functions, VCs generated from /repo source by pyvc (loop invariants, ghost lemmas, callee contracts), discharged by z3' + "; " + 'run-time contracts of the property evaluated on the real functions over enumerated / seeded bounded domains against oracles written from the property statement (bounded stand-in, never counted as proved)',
        text="Proved against a ghost table GT of all genotypes in VCF order (exists by C11; the contracts hold for every such table): genotype_posteriors[i] is proportional to exp(llk_i + prior(GT[i])) and sums to one; _genotype_likelihoods[i] == LLKA(GT[i]); posterior_allele_frequencies == (ACNT/ploidy, ACNT, AOCC) functionals; _call_posterior_mode returns a maximiser of likelihood x prior and the log normalising constant over all genotypes; _posterior_allele_frequencies (streaming path) computes the same functionals of exp(log joint - log denominator). Bounded: Python wrappers and program.call_sample_genotypes (4 samples, mixed ploidy, 4 --report sets, 140 haplotypes) equal the independently enumerated posterior.",
        design_ref="DESIGN.md 4 (C03)", note=BASE_NOTE + "float32 GL tolerance 2e-5; exact ties skipped."),
    "C05": dict(category="other", technique='contract-based deductive verification: sidecar contracts on the real functions, VCs generated from /repo source by pyvc (loop invariants, ghost lemmas, callee contracts), discharged by z3' + " for the assemble prior; " + 'run-time contracts of the property evaluated on the real functions over enumerated / seeded bounded domains against oracles written from the property statement (bounded stand-in, never counted as proved)',
        text="Proved: ln_equivalent_permutations, assemble null / Dirichlet-multinomial / genotype priors and the call genotype prior (flat and with frequencies) equal the lgamma closed forms; log_genotype_allele_prior equals the Polya-urn conditional; lemmas: the assemble prior equals the call prior with flat frequencies over u haplotypes; the single-allele conditional is the exact conditional of the joint prior (flat and with positive frequencies). Bounded: sums to one (ploidy up to 14, zero frequencies), conditional == exact conditional of the joint, every dosage partition, ploidy<=13(16), up to 2^150 haplotypes.",
        design_ref="DESIGN.md 4 (C05)", note=BASE_NOTE),
    "C14": dict(category="exploration", technique='contract-based deductive verification: sidecar contracts on the real functions, VCs generated from /repo source by pyvc (loop invariants, ghost lemmas, callee contracts), discharged by z3' + "; " + 'run-time contracts of the property evaluated on the real functions over enumerated / seeded bounded domains against oracles written from the property statement (bounded stand-in, never counted as proved)',
        text="Proved: _posterior_frequencies returns the empirical mean allele counts / frequencies / occurrence over all retained steps of all chains; posterior_as_array places each observed probability at the VCF position of its genotype. Bounded (seeded random traces incl. 70-SNV loci, every burn-in, random within-genotype order): posterior, mode, mode support, G-ordered array, chain incongruence of GenotypeMultiTrace / GenotypeAllelesMultiTrace and mset helpers equal a multiset oracle. Known finding F9 (MCI 1-vs-2 depends on chain order) is reported as KNOWN-FINDING.",
        design_ref="DESIGN.md 4, 5 (F9)", note=BASE_NOTE),
    "C17": dict(category="other", technique='run-time contracts of the property evaluated on the real functions over enumerated / seeded bounded domains against oracles written from the property statement (bounded stand-in, never counted as proved)' + "; " + 'contract-based deductive verification: sidecar contracts on the real functions, VCs generated from /repo source by pyvc (loop invariants, ghost lemmas, callee contracts), discharged by z3' + ' for the gamete probability and its building blocks only',
        text="Proved: dosage_permutations == product of binomials C(parent copies, gamete copies) (no int64 overflow for <= 6 alleles x <= 12 copies); set_initial_dosage yields the first gamete of the enumeration (within the constraint, tau copies in total; raises exactly when tau does not fit); double_reduction_permutations; gamete_log_pmf == (1 - lambda) x multivariate hypergeometric BPROD / C(ploidy, tau) + lambda x (copies of the doubled allele / ploidy); set_allelic_dosage / set_parental_copies / set_complimentary_gamete (the dosage arrays of a trio); duo_valid == the closed-form Mendelian test (sum of contributable copies >= tau, double reduction included); increment_dosage (one enumeration step) keeps the gamete within the constraint with the same number of copies and strictly lexicographically smaller. The inheritance pmf, its normalisation and the validity equivalence are NOT within reach of a contract on one call (sums over enumerated gametes): bounded, exhaustive over parental genotypes on 3 alleles, ploidy 2/4(/6), balanced / unbalanced / clonal tau, known / unknown parents, lambda {0,.3}, error grids: exp(trio_log_pmf) equals a brute-force union-of-gametes model pointwise and sums to one; gamete_log_pmf sums to one; zero-error positivity iff trio_valid / duo_valid; PEDERR uses the right parent / tau column.",
        design_ref="DESIGN.md 4 (C17)", note=BASE_NOTE),
    "C18": dict(category="other", technique='run-time contracts of the property evaluated on the real functions over enumerated / seeded bounded domains against oracles written from the property statement (bounded stand-in, never counted as proved)' + "; " + 'contract-based deductive verification: sidecar contracts on the real functions, VCs generated from /repo source by pyvc (loop invariants, ghost lemmas, callee contracts), discharged by z3' + ' for the way the sampler combines likelihood, Markov-blanket prior (proved down to assumed per-trio pmfs) and the shared cache',
        text="Proved (with the per-trio pmfs trio_log_pmf / trio_allele_log_pmf as assumed abstract functions): the three Markov-blanket functions return the pmf of the trio in which the target is the child plus the pmf of the trio of each listed child; sample_children_matrix lists exactly the children of every individual; lemma: the joint pedigree prior over all individuals = blanket probability of t + a rest that does not read t's genotype (hypothesis: the pmf ignores the row passed for an unknown parent, checked at run time); gibbs_probabilities returns exp(own-reads likelihood + Markov-blanket prior) normalised; metropolis_hastings_probabilities is a distribution; both restore the state; pair_allele_swap_step restores the genotypes on rejection; allele_step / sample_step / compound_step keep all genotypes valid. Bounded: 13 small pedigrees (founders, duo, trio, half-sibs, selfing, two generations, mixed ploidy, unbalanced and clonal gametes, two families) x seeded joint states x every (individual, allele copy): gibbs_probabilities == exact full conditional of prod L_i P(g_i|parents) (brute-force inheritance model); MH vector and parental allele exchange in detailed balance; reject restores the state.",
        design_ref="DESIGN.md 4 (C18), 5 (F8)", note=BASE_NOTE),
    "C13": dict(category="exploration", technique='run-time contracts of the property evaluated on the real functions over enumerated / seeded bounded domains against oracles written from the property statement (bounded stand-in, never counted as proved)',
        text="Seeded collections of dyadic per-sample posteriors x thresholds: ALT iff occurrence >= threshold in some sample, REF first, REFMASKED iff REF below threshold, ALT order by summed dosage; program.call_sample_genotypes with prescribed traces: GT '.' exactly for excluded haplotypes, sorted, allele 0 unused when REFMASKED (incl. NOA), GP has one entry per genotype of the record, AFP/GP sum <= 1.",
        design_ref="DESIGN.md 4", note=BASE_NOTE),
    "C16": dict(category="exploration", technique='run-time contracts of the property evaluated on the real functions over enumerated / seeded bounded domains against oracles written from the property statement (bounded stand-in, never counted as proved)',
        text="Generated records parsed by pysam x frequency tags (Float and Integer) x (field, operator, literal) grid: exactly the failing ALTs removed, failing REF masked, prior normalised over retained alleles (NaN when all zero); call and call-exact with masked / zero-prior alleles at every position: never in GT, zero and R-length AFP, NOA/AF0 with missing calls instead of aborting.",
        design_ref="DESIGN.md 4, 5 (F10, F11)", note=BASE_NOTE),
    "C20": dict(category="exploration", technique='run-time contracts of the property evaluated on the real functions over enumerated / seeded bounded domains against oracles written from the property statement (bounded stand-in, never counted as proved)',
        text="Generated haplotype VCFs (ALT-less, monomorphic SNVs, '.' alleles, mixed ploidy, ACP/AFP/none, SNVDP): format_vcf_snv_block equals the per-site projection (POS, REF/ALT by first appearance, phased GT, PS, AC, ACP, DS) and accepts every record shape.",
        design_ref="DESIGN.md 4, 5 (F6, F7)", note=BASE_NOTE),
    "C12": dict(category="exploration", technique='run-time contracts of the property evaluated on the real functions over enumerated / seeded bounded domains against oracles written from the property statement (bounded stand-in, never counted as proved)',
        text="Round trip format_haplotypes(encode_haplotypes()) and SNV positions / first-appearance numbering on generated records (every single-SNV offset incl. last base); assemble -> call / call-exact pipeline on the repository test alignments for several regions / thresholds (REFMASKED, NOA, last-base SNV): same CHROM/POS/REF/ALT, complete genotypes unless NOA/AF0.",
        design_ref="DESIGN.md 4", note=BASE_NOTE),
    "C06": dict(category="exploration", technique='run-time contracts of the property evaluated on the real functions over enumerated / seeded bounded domains against oracles written from the property statement (bounded stand-in, never counted as proved)',
        text="Synthetic BAMs (two read groups, CIGAR M/I/D/S, flags, MAPQ grid, overlapping mates) x loci x MAPQ thresholds x all keep-flag combinations x read-group field: read matrix == filtered pileup of the construction (one row per name, mates merged, disagreement N); RCOUNT / RCALLS / de-duplicated counts; reference mismatch raises.",
        design_ref="DESIGN.md 4", note=BASE_NOTE + "pysam fetch / get_aligned_pairs semantics are exercised, not proved."),
    "C07": dict(category="exploration", technique='run-time contracts of the property evaluated on the real functions over enumerated / seeded bounded domains against oracles written from the property statement (bounded stand-in, never counted as proved)',
        text="The four programs run in-process on the repository test alignments x --report sets (default, all, single prefixed fields): independent text parser + pysam: declared keys, cardinalities 1/A/R/G per ploidy, GT well-formed, REF == reference sequence, ALT differ only at SNVPOS, AC/AN/UAN/NS recomputed, AFP/GP <= 1, INFO ACP totals; vcfstr rounds to three decimals.",
        design_ref="DESIGN.md 4", note=BASE_NOTE),
    "C08": dict(category="exploration", technique='run-time contracts of the property evaluated on the real functions over enumerated / seeded bounded domains against oracles written from the property statement (bounded stand-in, never counted as proved)',
        text="assemble x {repeat, --cores 2/3, reversed / subset / single target lists}; call, call-exact, call-pedigree x {repeat, --cores 2}: identical headers and per-locus records, each locus exactly once; injected failing locus fails the run for cores 1 and 2; seeded fits (incl. seed 0) identical after arbitrary RNG history for all four samplers.",
        design_ref="DESIGN.md 4", note=BASE_NOTE + "Only the schedules that occurred are covered: no claim over all interleavings."),
    "C19": dict(category="other", technique='run-time contracts of the property evaluated on the real functions over enumerated / seeded bounded domains against oracles written from the property statement (bounded stand-in, never counted as proved)',
        text="Synthetic BAM with every flag class x MAPQ x base: bam_region_depths follows --mapping-quality and each keep flag (24 option sets); write_vcf_block on 3 synthetic samples x threshold grid: positions emitted, alleles listed (individual thresholds met within one sample), REFMASKED, ALT order.",
        design_ref="DESIGN.md 4, 5 (F5)", note=BASE_NOTE + "pysam pileup defaults (orphans, base quality 13, overlaps) avoided by construction."),
}

NOT_APPLICABLE = {
    "C10": "relational hyper-property across different program executions over different BAM sets through pysam I/O; no contract on one call or one data structure within reach of the verifier expresses it (DESIGN.md 6)",
}

PENDING_REASON = "check not built yet in this session (planned per DESIGN.md 9); listed here until its check is registered"


def main():
    props = [json.loads(l) for l in open(os.path.join(ROOT, "properties.jsonl"))]
    checks = []
    na = []
    for p in props:
        pid = p["id"]
        if pid in CLAIMED:
            c = CLAIMED[pid]
            checks.append(
                {
                    "property_id": pid,
                    "quick_cmd": "./check %s --tier quick" % pid,
                    "thorough_cmd": "./check %s --tier thorough" % pid,
                    "evidence_file": "/verif/evidence/%s.json" % pid,
                    "replay_cmd_template": "./check %s --replay {path}" % pid,
                    "engine": "pyvc",
                    "level_claimed": {"category": c["category"], "text": c["text"], "design_ref": c["design_ref"]},
                    "level_note": c["note"],
                    "technique": c["technique"],
                }
            )
        else:
            na.append({"property_id": pid, "reason": NOT_APPLICABLE.get(pid, PENDING_REASON)})
    m = {
        "version": 1,
        "setup_cmd": "python3-vt -m pyvc.selfcheck",
        "hooks": {
            "guard": "MCHAP_VERIF",
            "enable": "no hooks are needed: contracts are sidecar files under /verif/contracts and the VC generator reads /repo source text; the guard name is reserved and unused",
            "baseline_off_cmd": "cd /repo && /venv/bin/python -m pytest -ra -q -p no:cacheprovider --timeout=900 --continue-on-collection-errors",
            "source_commits": [],
            "add_only": True,
        },
        "engines": [
            {
                "name": "pyvc",
                "path": "/verif/pyvc",
                "serves_properties": sorted(CLAIMED),
                "kind_free_text": "own weakest-precondition style VC generator over the Python ast of the real numba-subset functions + sidecar contracts (/verif/contracts) + z3; run-time evaluation of the same contracts on the real functions (/verif/rt) as bounded stand-in and counterexample replay",
            }
        ],
        "checks": checks,
        "not_applicable": na,
        "notes": "Exit codes of ./check: 0 held, 1 VIOLATION line printed, 2 UNDECIDED (solver unknown; no violation claimed), 3 tool failure. Genuine defects found and repaired are listed in /verif/known_findings.json.",
    }
    json.dump(m, open(os.path.join(ROOT, "MANIFEST.json"), "w"), indent=1)
    print("MANIFEST.json: %d checks, %d not_applicable" % (len(checks), len(na)))


if __name__ == "__main__":
    main()
