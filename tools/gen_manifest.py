#!/usr/bin/env python3
"""Regenerates /verif/MANIFEST.json from the per-property table below (kept in one place so
the file is always schema-valid and `not_applicable` stays current)."""
import json
import os

ROOT = os.path.dirname(os.path.dirname(os.path.abspath(__file__)))

BASE_NOTE = (
    "Trusted: CPython ast, pyvc (own VC generator, /verif/pyvc), z3-solver 5.1; modelled NumPy/math surface (pyvc/externals.py, listed per run in evidence.trusted_base); "
    "float arithmetic treated as exact extended-real arithmetic (A1), numba semantics = verified Python subset with int64/dtype/bounds excluded by obligations (A3). "
)

CLAIMED = {
    "C15": dict(category="proof", technique="contract-based deductive verification (pyvc VCs from real source + z3); bounded run-time contracts as stand-in", text="(in progress)", design_ref="DESIGN.md 4 (C15)", note=BASE_NOTE),
    "C04": dict(category="proof", technique="contract-based deductive verification (pyvc VCs from real source + z3); bounded run-time contracts as stand-in", text="(in progress)", design_ref="DESIGN.md 4 (C04)", note=BASE_NOTE),
    "C09": dict(category="proof", technique="contract-based deductive verification (pyvc VCs from real source + z3); arraymap get/set as assumed contracts checked at run time over exhaustive bounded operation sequences", text="(in progress)", design_ref="DESIGN.md 4 (C09)", note=BASE_NOTE),
    "C01": dict(category="other", technique="contract-based deductive verification of the kernel functions (pyvc + z3) + exhaustive run-time detailed-balance contracts on small state spaces (bounded)", text="(in progress)", design_ref="DESIGN.md 4 (C01)", note=BASE_NOTE),
    "C05": dict(category="other", technique="contract-based deductive verification of the kernel functions (pyvc + z3) + run-time contracts over exhaustively enumerated bounded domains", text="(in progress)", design_ref="DESIGN.md 4 (C05)", note=BASE_NOTE),
    "C02": dict(category="other", technique="contract-based deductive verification of the kernel functions (pyvc + z3) + run-time contracts over exhaustively enumerated bounded domains", text="(in progress)", design_ref="DESIGN.md 4 (C02)", note=BASE_NOTE),
    "C03": dict(category="other", technique="contract-based deductive verification of the kernel functions (pyvc + z3) + run-time contracts over exhaustively enumerated bounded domains", text="(in progress)", design_ref="DESIGN.md 4 (C03)", note=BASE_NOTE),
    "C17": dict(category="other", technique="run-time contracts on the real kernels over exhaustively enumerated bounded domains against a brute-force model of the inheritance process (bounded stand-in; no deductive contract discharged yet)", text="(in progress)", design_ref="DESIGN.md 4 (C17)", note=BASE_NOTE),
    "C18": dict(category="other", technique="run-time contracts on the real kernels over exhaustively enumerated bounded domains against a brute-force model of the inheritance process (bounded stand-in; no deductive contract discharged yet)", text="(in progress)", design_ref="DESIGN.md 4 (C18)", note=BASE_NOTE),
    "C14": dict(category="exploration", technique="run-time contracts evaluated on the real functions over enumerated / seeded bounded domains (bounded stand-in: this Python glue is outside the reach of the VC generator)", text="(in progress)", design_ref="DESIGN.md 4 (C14)", note=BASE_NOTE),
    "C13": dict(category="exploration", technique="run-time contracts evaluated on the real functions over enumerated / seeded bounded domains (bounded stand-in: this Python glue is outside the reach of the VC generator)", text="(in progress)", design_ref="DESIGN.md 4 (C13)", note=BASE_NOTE),
    "C16": dict(category="exploration", technique="run-time contracts evaluated on the real functions over enumerated / seeded bounded domains (bounded stand-in: this Python glue is outside the reach of the VC generator)", text="(in progress)", design_ref="DESIGN.md 4 (C16)", note=BASE_NOTE),
    "C20": dict(category="exploration", technique="run-time contracts evaluated on the real functions over enumerated / seeded bounded domains (bounded stand-in: this Python glue is outside the reach of the VC generator)", text="(in progress)", design_ref="DESIGN.md 4 (C20)", note=BASE_NOTE),
    "C12": dict(category="exploration", technique="run-time contracts evaluated on the real functions over enumerated / seeded bounded domains (bounded stand-in: this Python glue is outside the reach of the VC generator)", text="(in progress)", design_ref="DESIGN.md 4 (C12)", note=BASE_NOTE),
    "C19": dict(category="other", technique="call-site contract obligation (forwarded keyword arguments vs the documented pysam pileup interface) + run-time contract on a synthetic BAM (bounded)", text="(in progress)", design_ref="DESIGN.md 4 (C19)", note=BASE_NOTE),
    "C06": dict(category="exploration", technique="run-time contracts on the real functions / CLI over synthetic inputs with content known by construction (bounded stand-in; the pysam / multiprocessing / string code is outside the reach of the VC generator)", text="(in progress)", design_ref="DESIGN.md 4 (C06)", note=BASE_NOTE),
    "C07": dict(category="exploration", technique="run-time contracts on the real functions / CLI over synthetic inputs with content known by construction (bounded stand-in; the pysam / multiprocessing / string code is outside the reach of the VC generator)", text="(in progress)", design_ref="DESIGN.md 4 (C07)", note=BASE_NOTE),
    "C08": dict(category="exploration", technique="run-time contracts on the real functions / CLI over synthetic inputs with content known by construction (bounded stand-in; the pysam / multiprocessing / string code is outside the reach of the VC generator)", text="(in progress)", design_ref="DESIGN.md 4 (C08)", note=BASE_NOTE),
    "C11": dict(
        category="proof",
        technique="contract-based deductive verification: sidecar contracts on the real functions, VCs generated from /repo source by pyvc, discharged by z3 (unbounded); run-time contracts on a bounded grid as stand-in for the not-yet-proved functions",
        text="U (proved, all inputs): jitutils._greatest_common_denominatior returns a common divisor; jitutils._comb(n,k) == C(n,k) (Pascal-defined spec) with every int64 intermediate in range whenever C(n,k) < 2^53 (n < 2^62), via ghost lemmas (multiplicative recurrence, symmetry, monotonicity, C(2k,k) >= 2^k). "
        "Bounded (never counted as proved): comb/comb_with_replacement/genotype_alleles_as_index/index_as_genotype_alleles/increment_genotype/count_unique_genotypes against math.comb and an explicit colex enumeration on a stated grid.",
        design_ref="DESIGN.md 4 (C11), Appendix A.1-A.4",
        note=BASE_NOTE + "cwr(0,0)=0 is the code's documented quirk and excluded (n_alleles >= 1).",
    ),
}

NOT_APPLICABLE = {
    "C10": "relational hyper-property across different program executions over different BAM sets through pysam I/O; no contract on one call or one data structure within reach of the verifier expresses it (DESIGN.md 6)",
}

PENDING_REASON = "check not built yet in this session (planned per DESIGN.md 9); listed here until its check is registered"


def main():
    props = [json.loads(l) for l in open(os.path.join(ROOT, "properties.jsonl"))]
    checks = []
    na = []
    for p in props:
        pid = p["id"]
        if pid in CLAIMED:
            c = CLAIMED[pid]
            checks.append(
                {
                    "property_id": pid,
                    "quick_cmd": "./check %s --tier quick" % pid,
                    "thorough_cmd": "./check %s --tier thorough" % pid,
                    "evidence_file": "/verif/evidence/%s.json" % pid,
                    "replay_cmd_template": "./check %s --replay {path}" % pid,
                    "engine": "pyvc",
                    "level_claimed": {"category": c["category"], "text": c["text"], "design_ref": c["design_ref"]},
                    "level_note": c["note"],
                    "technique": c["technique"],
                }
            )
        else:
            na.append({"property_id": pid, "reason": NOT_APPLICABLE.get(pid, PENDING_REASON)})
    m = {
        "version": 1,
        "setup_cmd": "python3-vt -m pyvc.selfcheck",
        "hooks": {
            "guard": "MCHAP_VERIF",
            "enable": "no hooks are needed: contracts are sidecar files under /verif/contracts and the VC generator reads /repo source text; the guard name is reserved and unused",
            "baseline_off_cmd": "cd /repo && /venv/bin/python -m pytest -ra -q -p no:cacheprovider --timeout=900 --continue-on-collection-errors",
            "source_commits": [],
            "add_only": True,
        },
        "engines": [
            {
                "name": "pyvc",
                "path": "/verif/pyvc",
                "serves_properties": sorted(CLAIMED),
                "kind_free_text": "own weakest-precondition style VC generator over the Python ast of the real numba-subset functions + sidecar contracts (/verif/contracts) + z3; run-time evaluation of the same contracts on the real functions (/verif/rt) as bounded stand-in and counterexample replay",
            }
        ],
        "checks": checks,
        "not_applicable": na,
        "notes": "Exit codes of ./check: 0 held, 1 VIOLATION line printed, 2 UNDECIDED (solver unknown; no violation claimed), 3 tool failure. Genuine defects found and repaired are listed in /verif/known_findings.json.",
    }
    json.dump(m, open(os.path.join(ROOT, "MANIFEST.json"), "w"), indent=1)
    print("MANIFEST.json: %d checks, %d not_applicable" % (len(checks), len(na)))


if __name__ == "__main__":
    main()
