#!/bin/bash
# runs every registered quick (or $1=thorough) check and validates the evidence files
TIER=${1:-quick}
cd /verif
for ID in $(python3 -c "import json;print(' '.join(c['property_id'] for c in json.load(open('MANIFEST.json'))['checks']))"); do
  S=$(date +%s)
  ./check $ID --tier $TIER > /tmp/chk_$ID.log 2>&1; RC=$?
  E=$(( $(date +%s) - S ))
  echo "$ID exit=$RC ${E}s $(grep -c KNOWN-FINDING /tmp/chk_$ID.log) known; $(tail -1 /tmp/chk_$ID.log | cut -c1-140)"
done
python3-vt - <<'PY'
import json,jsonschema,glob
sch=json.load(open('/root/.vp/EVIDENCE.schema.json'))
for f in sorted(glob.glob('/verif/evidence/*.json')):
    try:
        jsonschema.validate(json.load(open(f)),sch)
    except Exception as ex:
        print('INVALID',f,str(ex)[:200])
print('evidence validated')
PY
