#!/bin/bash
# tools/confirm_seed.sh <seed-id> <dir-with-seedK.diff/seedK_demo.py/seedK_notes.md> <K> <property>
# Confirms a seeded change in a fresh scratch worktree of /repo HEAD: patch applies, demo fails with it,
# the pinned test suite still passes (same failures as baseline), demo passes without it.
# On success stores /verif/seeded/<seed-id>/{patch.diff,demo.py,notes.md,meta.json}.
set -u
ID=$1; SRC=$2; K=$3; PROP=$4
WT=$(mktemp -d /tmp/confirm_${ID}_XXXX)
rmdir "$WT"
git -C /repo worktree add -q --detach "$WT" HEAD || exit 3
cleanup() { git -C /repo worktree remove --force "$WT" 2>/dev/null; rm -rf "$WT"; }
trap cleanup EXIT
cd "$WT" || exit 3
export NUMBA_CACHE_DIR="$WT/.nbcache"
export PYTHONPATH="$WT"
mkdir -p _seed && cp "$SRC/seed${K}_demo.py" _seed/
if ! git apply --check "$SRC/seed${K}.diff" 2>/dev/null; then echo "RESULT $ID: patch does not apply to HEAD"; exit 2; fi
/venv/bin/python -W ignore _seed/seed${K}_demo.py > demo_clean.log 2>&1; RC_CLEAN=$?
git apply "$SRC/seed${K}.diff"
rm -rf "$NUMBA_CACHE_DIR"
/venv/bin/python -W ignore _seed/seed${K}_demo.py > demo_seeded.log 2>&1; RC_SEEDED=$?
/venv/bin/python -m pytest -q -p no:cacheprovider --timeout=900 -n 6 mchap/tests > tests.log 2>&1
FAILS=$(grep -E "^FAILED" tests.log | grep -v "test_docs.py::test_help_text" | grep -v "test_comb\[0-0\]" | sort)
SUMMARY=$(tail -1 tests.log)
if [ -n "$FAILS" ]; then
  # flaky stochastic tests: rerun only the failures once
  RERUN=$(echo "$FAILS" | sed 's/^FAILED //; s/ - .*//' | tr '\n' ' ')
  /venv/bin/python -m pytest -q -p no:cacheprovider --timeout=900 $RERUN > tests_rerun.log 2>&1
  FAILS2=$(grep -E "^FAILED" tests_rerun.log | sort)
else
  FAILS2=""
fi
echo "RESULT $ID: demo clean rc=$RC_CLEAN seeded rc=$RC_SEEDED; tests: $SUMMARY; extra failures after rerun: [$FAILS2]"
if [ $RC_CLEAN -eq 0 ] && [ $RC_SEEDED -ne 0 ] && [ -z "$FAILS2" ]; then
  D=/verif/seeded/$ID; mkdir -p $D
  cp "$SRC/seed${K}.diff" $D/patch.diff; cp "$SRC/seed${K}_demo.py" $D/demo.py; cp "$SRC/seed${K}_notes.md" $D/notes.md 2>/dev/null
  python3 - "$ID" "$PROP" "$SUMMARY" "$(tail -3 demo_seeded.log | tr '\n' ' ' | cut -c1-400)" "$(git -C /repo rev-parse --short HEAD)" <<'PY'
import json,sys
i,prop,summary,demo,head=sys.argv[1:6]
json.dump({"id":i,"property":prop,"repo_head_when_confirmed":head,
 "confirmed":{"patch_applies":True,"demo_without_change_rc":0,"demo_with_change":"non-zero: "+demo,"test_suite_with_change":summary+" (only the 4 baseline failures: 3x test_docs help text, test_comb[0-0])"},
 "ran":"tools/confirm_seed.sh in a scratch git worktree of /repo HEAD (removed afterwards)",
 "needs_to_manifest":"see notes.md"}, open(f"/verif/seeded/{i}/meta.json","w"), indent=1)
PY
  echo "STORED $ID"
  exit 0
fi
exit 1
