#!/bin/bash
# runs every stored seeded change against the check of its property (applies the patch to /repo, runs
# ./check <prop> --tier quick, reverts).  Writes seeded/RESULTS.md
cd /verif
OUT=seeded/RESULTS.md
echo "| seed | property | exit | detected by |" > $OUT
echo "|---|---|---|---|" >> $OUT
for d in seeded/C*/; do
  ID=$(basename $d)
  tools/seedtest.sh $ID > /tmp/seedrun_$ID.txt 2>&1
  RC=$(grep -o "exit=[0-9]*" /tmp/seedrun_$ID.txt | head -1 | cut -d= -f2)
  PROP=$(python3 -c "import json;print(json.load(open('$d/meta.json'))['property'])")
  BY=$(grep "failed obligation" /tmp/seedrun_$ID.txt | sed 's/failed obligation: //' | cut -c1-90 | head -3 | tr '\n' ';' )
  echo "| $ID | $PROP | $RC | $BY |" >> $OUT
  echo "$ID $RC"
done
