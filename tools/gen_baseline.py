#!/usr/bin/env python3
"""Records, for the pinned tree, which obligations of every function under contract are discharged
(/verif/baseline/obligations.json: unit -> {sha256 of the function source, obligation ids}).  ./check uses it to
tell 'an obligation that passed on the unchanged tree and now fails on changed source' (reported as a violation, with
the suffix no-failing-input-found when no input replays) from 'undecided on unchanged source' (never a violation).
Run with python3-vt on the unchanged tree after contracts change; the file is committed, never written by a check."""
import json
import multiprocessing as mp
import os
import sys

ROOT = os.path.dirname(os.path.dirname(os.path.abspath(__file__)))
sys.path.insert(0, ROOT)
from pyvc import run as R  # noqa


def work(u):
    return u, R.verify_unit(u, 20000)


def main():
    db = R.load_db()
    units = [u for u in R.list_units(db) if u[0] == "contract"]
    out = {}
    bad = 0
    with mp.Pool(16, maxtasksperchild=1) as pool:
        for u, r in pool.imap_unordered(work, units, chunksize=1):
            key = "%s|%s" % (u[1], json.dumps(u[2], sort_keys=True))
            ids = sorted(o["id"] for o in r["obligations"] if o["status"] == "unsat")
            if r["error"] or len(ids) != len(r["obligations"]):
                bad += 1
                print("NOT CLEAN:", key, r["error"])
            out[key] = {"sha256": r.get("sha"), "discharged": ids}
    os.makedirs(os.path.join(ROOT, "baseline"), exist_ok=True)
    json.dump(out, open(os.path.join(ROOT, "baseline", "obligations.json"), "w"), indent=0, sort_keys=True)
    print("baseline: %d units, %d obligations, %d not clean" % (len(out), sum(len(v["discharged"]) for v in out.values()), bad))
    return 1 if bad else 0


if __name__ == "__main__":
    sys.exit(main())
