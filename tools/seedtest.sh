#!/bin/bash
# tools/seedtest.sh <seed-id> [tier]  : apply /verif/seeded/<id>/patch.diff to /repo, run the check of its
# property, undo the patch straight afterwards. Prints the check's verdict.
ID=$1; TIER=${2:-quick}
D=/verif/seeded/$ID
PROP=$(python3 -c "import json;print(json.load(open('$D/meta.json'))['property'])")
cd /repo || exit 3
if [ -n "$(git status --porcelain --untracked-files=no)" ]; then echo "/repo not clean"; exit 3; fi
git apply $D/patch.diff || { echo "patch does not apply"; exit 3; }
cp /verif/evidence/$PROP.json /tmp/evidence_$PROP.keep 2>/dev/null
cd /verif && ./check $PROP --tier $TIER > /tmp/seedtest_$ID.log 2>&1; RC=$?
git -C /repo checkout -- . 
# the evidence file written by this run describes the seeded tree: put the clean-tree evidence back
[ -f /tmp/evidence_$PROP.keep ] && mv /tmp/evidence_$PROP.keep /verif/evidence/$PROP.json
echo "SEED $ID property=$PROP exit=$RC"; grep -E "VIOLATION|UNDECIDED|TOOL-FAILURE|failed obligation" /tmp/seedtest_$ID.log | cut -c1-220 | head -8
exit 0
