#!/usr/bin/env python3
"""dev helper: verify every unit (or those matching argv substrings) in a 16-process pool; prints only
units with undischarged obligations, errors, vacuous canaries or unreached branches.  python3-vt."""
import multiprocessing as mp
import os
import sys
import time

ROOT = os.path.dirname(os.path.dirname(os.path.abspath(__file__)))
sys.path.insert(0, ROOT)
from pyvc import run as R  # noqa


def work(u):
    return u, R.verify_unit(u, int(os.environ.get("PYVC_TIMEOUT_MS", "10000")))


def main():
    db = R.load_db()
    units = R.list_units(db)
    if len(sys.argv) > 1:
        units = [u for u in units if any(a in u[1] for a in sys.argv[1:])]
    vf = os.environ.get("PYVC_VARIANT")
    if vf:
        units = [u for u in units if vf in str(sorted(u[2].items()))]
    t0 = time.time()
    bad = 0
    tot = ok = 0
    br = {}
    # long units first
    units.sort(key=lambda u: (0 if "_denovo" in u[1] or "interval_step" in u[1] or "compound_step" in u[1] else 1, u[1]))
    with mp.Pool(16, maxtasksperchild=1) as pool:
        for u, r in pool.imap_unordered(work, units, chunksize=1):
            n = len(r["obligations"])
            k = sum(1 for o in r["obligations"] if o["status"] == "unsat")
            tot += n
            ok += k
            for k_, v_ in (r.get("branches") or {}).items():
                cur = br.setdefault((u[1], k_), [False, False, r.get("dead_ok", [])])
                cur[0] = cur[0] or v_[0]
                cur[1] = cur[1] or v_[1]
            for o in r["obligations"]:
                if o["time"] > float(os.environ.get("PYVC_SLOW_S", "1e9")):
                    print("   SLOW %.1fs %s" % (o["time"], o["id"][:150]))
            vac = [c for c in r.get("canaries", []) if c["status"] == "vacuous"]
            if r["error"] or k != n or vac:
                bad += 1
                print("%-8s %-60s %s  %d/%d  %.1fs" % (u[0], u[1], u[2] or "", k, n, r["wall_s"]))
                if r["error"]:
                    print("   ERROR", " | ".join(r["error"].strip().splitlines()[-3:])[:400])
                for c in vac:
                    print("   canary vacuous", c["id"])
                for o in r["obligations"]:
                    if o["status"] != "unsat":
                        print("   %-7s %-70s %.2fs  L%s %s" % (o["status"], o["id"], o["time"], o["line"], o["text"][:50]))
    for (fn, k_), v_ in br.items():
        for side, name in ((0, "then"), (1, "else")):
            if not v_[side] and (k_ + " " + name) not in v_[2]:
                print("   UNREACHED-BRANCH %s: %s [%s]" % (fn, k_, name))
                bad += 1
    print("units %d  obligations %d/%d  bad-units %d  wall %.0fs" % (len(units), ok, tot, bad, time.time() - t0))
    return 1 if bad else 0


if __name__ == "__main__":
    sys.exit(main())
