#!/usr/bin/env python3
"""tools/run_all_seeds_par.py [JOBS]: like run_all_seeds.sh, but the seeds of different properties run concurrently, each
property group on its own scratch git worktree of /repo HEAD (PYVC_REPO points ./check at it; /repo itself is not touched).
Seeds of one property run one after the other (evidence / replay files are per property).  Writes seeded/RESULTS.md."""
import glob
import json
import os
import shutil
import subprocess
import sys
from concurrent.futures import ThreadPoolExecutor

ROOT = os.path.dirname(os.path.dirname(os.path.abspath(__file__)))
JOBS = int(sys.argv[1]) if len(sys.argv) > 1 else 4


def run_group(item):
    prop, ids = item
    wt = "/tmp/seedpar_%s" % prop
    subprocess.run(["git", "-C", "/repo", "worktree", "remove", "--force", wt], capture_output=True)
    shutil.rmtree(wt, ignore_errors=True)
    subprocess.run(["git", "-C", "/repo", "worktree", "add", "-q", "--detach", wt, "HEAD"], check=True, capture_output=True)
    keep = None
    evp = os.path.join(ROOT, "evidence", prop + ".json")
    if os.path.exists(evp):
        keep = open(evp).read()
    out = []
    try:
        for sid in ids:
            d = os.path.join(ROOT, "seeded", sid)
            ap = subprocess.run(["git", "-C", wt, "apply", os.path.join(d, "patch.diff")], capture_output=True, text=True)
            if ap.returncode != 0:
                out.append((sid, prop, "3", "patch does not apply"))
                continue
            env = dict(os.environ, PYVC_REPO=wt)
            p = subprocess.run(["./check", prop, "--tier", "quick"], cwd=ROOT, env=env, capture_output=True, text=True)
            subprocess.run(["git", "-C", wt, "checkout", "--", "."], capture_output=True)
            by = [l.replace("failed obligation: ", "")[:90] for l in p.stdout.splitlines() if l.startswith("failed obligation")][:3]
            if not by:
                by = [l[:90] for l in p.stdout.splitlines() if l.startswith("TOOL-FAILURE") or l.startswith("UNDECIDED")][:2]
            out.append((sid, prop, str(p.returncode), ";".join(by)))
            print(sid, p.returncode, flush=True)
    finally:
        if keep is not None:
            open(evp, "w").write(keep)
        subprocess.run(["git", "-C", "/repo", "worktree", "remove", "--force", wt], capture_output=True)
        shutil.rmtree(wt, ignore_errors=True)
    return out


def main():
    groups = {}
    for d in sorted(glob.glob(os.path.join(ROOT, "seeded", "C*/"))):
        sid = os.path.basename(d.rstrip("/"))
        prop = json.load(open(os.path.join(d, "meta.json")))["property"]
        only = os.environ.get("SEEDS_ONLY")
        if only and prop not in only.split(","):
            continue
        groups.setdefault(prop, []).append(sid)
    rows = []
    with ThreadPoolExecutor(JOBS) as ex:
        for r in ex.map(run_group, sorted(groups.items(), key=lambda kv: -len(kv[1]))):
            rows += r
    rows.sort()
    with open(os.path.join(ROOT, "seeded", "RESULTS.md" if not os.environ.get("SEEDS_ONLY") else "RESULTS_partial.md"), "w") as f:
        f.write("| seed | property | exit | detected by |\n|---|---|---|---|\n")
        for r in rows:
            f.write("| %s | %s | %s | %s |\n" % r)
    bad = [r for r in rows if r[2] != "1"]
    print("%d seeds, %d detected (exit 1), others: %s" % (len(rows), len(rows) - len(bad), [(r[0], r[2]) for r in bad]))


if __name__ == "__main__":
    main()
