#!/bin/bash
# Runs the pinned test suite of /repo (guard off) and compares the set of passing tests with
# /root/.vp/BASELINE.json stable_pass.  Exit 0 iff every baseline-stable test still passes.
OUT=$(mktemp /tmp/baseline_XXXX.xml)
cd /repo && /venv/bin/python -m pytest -q -p no:cacheprovider --timeout=900 --continue-on-collection-errors -n 12 --junitxml=$OUT > /tmp/baseline_run.log 2>&1
python3 - "$OUT" <<'PY'
import json,sys,xml.etree.ElementTree as ET
base=set(json.load(open('/root/.vp/BASELINE.json'))['stable_pass'])
t=ET.parse(sys.argv[1])
passed=set()
for tc in t.iter('testcase'):
    name=tc.get('classname')+'::'+tc.get('name')
    if not any(c.tag in('failure','error','skipped') for c in tc):
        passed.add(name)
missing=sorted(base-passed)
print("baseline stable tests: %d, passing now: %d, missing: %d"%(len(base),len(base&passed),len(missing)))
import subprocess
still=[]
for m in missing[:40]:
    mod,name=m.split('::',1)
    path=mod.replace('.','/')+'.py::'+name
    ok=False
    for _ in range(2):  # unseeded stochastic tests: rerun in isolation
        r=subprocess.run(['/venv/bin/python','-m','pytest','-q','-p','no:cacheprovider',path],cwd='/repo',capture_output=True,text=True)
        if r.returncode==0: ok=True; break
    print("  %s on rerun: %s"%("passes" if ok else "STILL FAILS",m))
    if not ok: still.append(m)
sys.exit(1 if still else 0)
PY
RC=$?; rm -f $OUT; exit $RC
